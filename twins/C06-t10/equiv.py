# -*- coding: UTF-8 -*-
"""Equivalence transcript for C06 (Scenario Outline expansion).

Prints a canonical transcript of everything observable about the expansion
of scenario outlines: template and generated scenarios (names, tags, steps,
doc-strings, step tables, lines, order), cache identity, rebuilds after
Table API modifications, direct calls of the ScenarioOutlineBuilder helpers
(incl. error cases and evaluation order with logging placeholder providers).
"""
from __future__ import print_function, unicode_literals
import sys
sys.path.insert(0, "/tmp/wtV/C06")

import io
import contextlib
import traceback
from collections import OrderedDict

import six
from behave import parser
from behave import model
from behave.model import (
    ScenarioOutline, ScenarioOutlineBuilder, Scenario, Step, Table, Row,
    Examples, Tag,
)

OUT = []


def emit(*args):
    OUT.append(u" ".join(six.text_type(a) for a in args))


def r(value):
    """Canonical repr (no u'' prefixes, no addresses)."""
    if isinstance(value, six.text_type):
        return u"'%s'" % value.replace(u"\\", u"\\\\").replace(u"\n", u"\\n")
    if isinstance(value, (list, tuple)):
        inner = u", ".join(r(v) for v in value)
        return (u"[%s]" if isinstance(value, list) else u"(%s)") % inner
    if isinstance(value, dict):
        return u"{%s}" % u", ".join(u"%s: %s" % (r(k), r(v))
                                    for k, v in value.items())
    return six.text_type(repr(value))


@contextlib.contextmanager
def captured_stdout():
    old = sys.stdout
    buf = io.StringIO() if six.PY3 else io.BytesIO()
    sys.stdout = buf
    try:
        yield buf
    finally:
        sys.stdout = old


def attempt(label, func, *args, **kwargs):
    try:
        with captured_stdout() as buf:
            result = func(*args, **kwargs)
        printed = buf.getvalue()
        emit(label, "->", r(result))
        if printed:
            emit(label, "printed:", r(six.text_type(printed)))
        return result
    except Exception as e:  # pylint: disable=broad-except
        emit(label, "-> EXC", type(e).__name__, r(six.text_type(e)))
        return None


def dump_table(prefix, table):
    if table is None:
        emit(prefix, "table: None")
        return
    emit(prefix, "table.headings:", r(list(table.headings)),
         "line:", table.line, "modified:", table.modified)
    for row in table.rows:
        emit(prefix, "  row:", r(list(row.cells)), "line:", row.line,
             "headings-shared:", row.headings is table.headings)


def dump_step(prefix, step):
    emit(prefix, "step:", step.keyword, step.step_type, r(step.name),
         "line:", step.line, "file:", step.filename,
         "status:", step.status.name)
    if step.text is not None:
        emit(prefix, "  text:", r(six.text_type(step.text)),
             "type:", type(step.text).__name__)
    if step.table is not None:
        dump_table(prefix + "  ", step.table)


def dump_scenario(prefix, scenario):
    emit(prefix, "scenario:", r(scenario.name))
    emit(prefix, "  keyword:", r(scenario.keyword), "line:", scenario.line,
         "file:", scenario.filename, "location:", str(scenario.location))
    emit(prefix, "  tags:", r([six.text_type(t) for t in scenario.tags]),
         "types:", sorted(set(type(t).__name__ for t in scenario.tags)))
    emit(prefix, "  effective_tags:",
         r(sorted(six.text_type(t) for t in scenario.effective_tags)))
    emit(prefix, "  description:", r(list(scenario.description or [])))
    row = getattr(scenario, "_row", None)
    if row is not None:
        emit(prefix, "  _row:", r(list(row.cells)), "id:", r(row.id),
             "index:", row.index, "line:", row.line)
    emit(prefix, "  parent-is-template:",
         isinstance(scenario.parent, ScenarioOutline))
    for step in scenario.steps:
        dump_step(prefix + "  ", step)
    bsteps = scenario._background_steps     # pylint: disable=protected-access
    if bsteps is None:
        emit(prefix, "  own-background-steps: None")
    else:
        for step in bsteps:
            dump_step(prefix + "  bg", step)
    for step in scenario.background_steps:
        dump_step(prefix + "  effective-bg", step)


def dump_template(prefix, outline):
    emit(prefix, "TEMPLATE:", r(outline.name), "line:", outline.line,
         "tags:", r([six.text_type(t) for t in outline.tags]))
    for step in outline.steps:
        dump_step(prefix + "  ", step)
    for example in outline.examples:
        emit(prefix, "  examples:", r(example.name), "line:", example.line,
             "index:", r(getattr(example, "index", "<unset>")),
             "tags:", r([six.text_type(t) for t in example.tags]))
        dump_table(prefix + "    ", example.table)


def outlines_of(feature):
    for item in feature.run_items:
        if isinstance(item, ScenarioOutline):
            yield item
        elif hasattr(item, "run_items"):
            for sub in item.run_items:
                if isinstance(sub, ScenarioOutline):
                    yield sub


def dump_outline(prefix, outline):
    dump_template(prefix + " before:", outline)
    with captured_stdout() as buf:
        try:
            scenarios = outline.scenarios
        except Exception as e:  # pylint: disable=broad-except
            emit(prefix, "scenarios -> EXC", type(e).__name__,
                 r(six.text_type(e)))
            dump_template(prefix + " after-exc:", outline)
            return None
    if buf.getvalue():
        emit(prefix, "printed:", r(six.text_type(buf.getvalue())))
    emit(prefix, "count:", len(scenarios))
    for scenario in scenarios:
        dump_scenario(prefix, scenario)
    again = outline.scenarios
    emit(prefix, "cached-identity:", again is scenarios,
         "via-iter:", [s is t for s, t in zip(list(outline), scenarios)])
    dump_template(prefix + " after:", outline)
    return scenarios


def dump_feature(label, text, schema=None, filename="some.feature"):
    emit("=" * 70)
    emit("FEATURE", label, "schema:", r(schema))
    old_schema = ScenarioOutline.annotation_schema
    if schema is not None:
        ScenarioOutline.annotation_schema = schema
    try:
        try:
            feature = parser.parse_feature(text, filename=filename)
        except Exception as e:  # pylint: disable=broad-except
            emit("parse -> EXC", type(e).__name__, r(six.text_type(e)))
            return None
        for number, outline in enumerate(outlines_of(feature)):
            dump_outline("O%d" % number, outline)
        # -- WALK: feature.walk_scenarios with/without outlines
        attempt("walk_scenarios:",
                lambda: [s.name for s in feature.walk_scenarios()])
        attempt("walk_scenarios(with_outlines):",
                lambda: [s.name for s in
                         feature.walk_scenarios(with_outlines=True)])
        return feature
    finally:
        ScenarioOutline.annotation_schema = old_schema


# ---------------------------------------------------------------------------
# FEATURES
# ---------------------------------------------------------------------------
FEATURE_BASIC = u'''
@feature_tag
Feature: Basic

  Background:
    Given a background step

  @outline_tag @param.<name> @both.<name>.<size>
  Scenario Outline: Use <name> and <size> -- <missing>
    Some description line with <name>.

    Given a step with "<name>"
    When I use <size> of <name><name>
      """
      Doc-string for <name>
      size=<size>; unknown=<unknown>
      no placeholder line
      """
    Then the table is rendered
      | col <name> | <size> | plain |
      | <name>     | x<size>x | <size><name> |
      | plain      | <nope> | < name > |
    But nothing has placeholders here

    @ex1 @ex.<name>
    Examples: First <name>
      | name  | size |
      | Alice | 1    |
      | Bob   | 22   |

    Examples:
      | size | name  |
      | 333  | Carol |

    @ex3
    Examples: Empty table
      | name | size |

    Examples: Third
      | name | size | extra |
      |      | 0    | e     |
      | <size> | <name> | size |
      | Zoë ü € | name | <name> |
'''

FEATURE_UNICODE = u'''
Feature: Unicode

  @tag.<städte> @<x>
  Scenario Outline: Ärger in <städte> mit <x>
    Given <x> liegt in <städte>
      """
      <städte>: «<x>»
      """
    When tabelle
      | <x> | <städte> |
      | ä<x>ö | <städte><städte> |

    Examples: Städte
      | städte  | x |
      | München | ✓ |
      | 北京     | <städte> |
      |         |   |
'''

FEATURE_NO_TABLE = u'''
Feature: No table
  Scenario Outline: Missing table <a>
    Given a <a>

    Examples: E1
    Examples: E2
      | a |
      | 1 |
    Examples: E3
'''

FEATURE_NO_EXAMPLES = u'''
Feature: No examples
  Scenario Outline: Nothing <a>
    Given a <a>
    When b
'''

FEATURE_BG_PARAM = u'''
Feature: Background with placeholders
  Background: BG
    Given a background for <who>
      | who   | n |
      | <who> | <n> |
    And a plain background step

  Scenario Outline: SO <who>
    Given <n> things

    Examples: Main
      | who | n |
      | me  | 1 |
      | you | 2 |

  Scenario: Plain one
    Given nothing

  Scenario Outline: Second outline <n>
    When <who> does <n>
    Examples:
      | n | who |
      | 7 | they |
'''

FEATURE_RULE = u'''
Feature: With rule
  Rule: R1
    Background:
      Given rule background

    @r.<v>
    Scenario Outline: In rule <v>
      Given value <v>
      Examples: RE
        | v |
        | a b |
        | c |
'''

FEATURE_CHAIN = u'''
Feature: Chained values
  @t.<a> @t.<b> @t.<c>
  Scenario Outline: <a>|<b>|<c>|<row.id>|<examples.name>|<examples.index>|<row.index>
    Given <a> <b> <c> <row.id> <examples.name>
      """
      <a> <b> <c> <row.index>
      """
    Then t
      | <a> | <b> | <c> |
      | <c> | <a> | <b> <row.id> |

    @e.<a>.<row.id>
    Examples: EX-<a>-<row.index>
      | a   | b   | c   |
      | <b> | <c> | end |
      | <c> | <a> | <b> |
      | <examples.name> | <row.id> | <examples.index> |

    Examples: Reordered <c>
      | c   | b   | a   |
      | <a> | <c> | <b> |
'''

SCHEMAS = [
    None,
    u"{name} -- @{row.id} {examples.name}",
    u"{name} -*- {examples.name}@{row.id}",
    u"{name}",
    u"{name} [{examples.index}/{row.index}] {examples.id}={row.name}",
    u"static",
    u"{row.id}:{row.index}:{examples.index}:{examples.name}:{name}",
]

for schema in SCHEMAS:
    dump_feature("basic", FEATURE_BASIC, schema)
for schema in SCHEMAS[:3]:
    dump_feature("unicode", FEATURE_UNICODE, schema)
    dump_feature("chain", FEATURE_CHAIN, schema)
dump_feature("no-table", FEATURE_NO_TABLE)
dump_feature("no-examples", FEATURE_NO_EXAMPLES)
dump_feature("bg-param", FEATURE_BG_PARAM)
dump_feature("rule", FEATURE_RULE)
dump_feature("bad-schema-key", FEATURE_NO_TABLE, u"{name} {unknown}")
dump_feature("bad-schema-attr", FEATURE_NO_TABLE, u"{name} {row.nope}")
dump_feature("bad-schema-index", FEATURE_NO_TABLE, u"{name} {0}")


# ---------------------------------------------------------------------------
# TABLE API MODIFICATIONS => REBUILD
# ---------------------------------------------------------------------------
emit("=" * 70)
emit("TABLE-API")
feature = parser.parse_feature(FEATURE_BASIC, filename="mod.feature")
outline = list(outlines_of(feature))[0]
first = outline.scenarios
emit("initial:", r([s.name for s in first]))
emit("modified-flags:", [e.table.modified for e in outline.examples])
emit("expected-count:", outline._expected_scenarios_count())
emit("any-modified:", outline._is_any_example_table_modified())

outline.examples[0].table.add_row([u"Dave", u"4"])
emit("after add_row flags:", [e.table.modified for e in outline.examples])
emit("any-modified:", outline._is_any_example_table_modified())
second = outline.scenarios
emit("rebuilt:", second is not first, r([s.name for s in second]),
     "lines:", [s.line for s in second])
emit("flags:", [e.table.modified for e in outline.examples])
emit("expected-count:", outline._expected_scenarios_count())

outline.examples[1].table.add_column(u"extra", values=[u"<name>!"])
third = outline.scenarios
emit("rebuilt:", third is not second, r([s.name for s in third]))
for scenario in third:
    dump_scenario("T3", scenario)

outline.examples[2].table.add_row(Row(outline.examples[2].table.headings,
                                      [u"Eve", u"5"]), line=99)
outline.examples[3].table.add_column(u"missing", default_value=u"DEF")
fourth = outline.scenarios
emit("rebuilt:", fourth is not third, r([s.name for s in fourth]),
     "lines:", [s.line for s in fourth])
emit("same-when-unmodified:", outline.scenarios is fourth)

outline.examples[0].table.remove_column(u"size")
fifth = outline.scenarios
emit("rebuilt:", fifth is not fourth, r([s.name for s in fifth]))
dump_scenario("T5", fifth[0])

outline.examples[0].table.clear()
sixth = outline.scenarios
emit("after clear:", r([s.name for s in sixth]),
     "flags:", [e.table.modified for e in outline.examples])

# -- non-text cell values through add_column => error path
outline.examples[1].table.add_column(u"num", values=[5])
attempt("scenarios with int cell", lambda: [s.name for s in outline.scenarios])
emit("flags after exc:", [e.table.modified for e in outline.examples])
emit("cache after exc is sixth:", outline._scenarios is sixth)
outline.examples[1].table.remove_column(u"num")
attempt("scenarios after repair", lambda: [s.name for s in outline.scenarios])

# -- example.table set to None / examples appended programmatically
outline.examples[1].table = None
emit("any-modified (one None):", outline._is_any_example_table_modified())
emit("expected-count (one None):", outline._expected_scenarios_count())
outline.examples[3].table.add_row([u"n", u"s", u"e", u"m"])
attempt("scenarios with None table", lambda: [s.name for s in outline.scenarios])
new_examples = Examples(u"prog.feature", 500, u"Examples", u"Programmatic",
                        tags=[Tag(u"prog", 499)],
                        table=Table([u"name", u"size"],
                                    rows=[[u"P", u"9"], [u"Q", u"10"]],
                                    line=501))
outline.examples.append(new_examples)
emit("any-modified (new examples):", outline._is_any_example_table_modified())
seventh = attempt("scenarios with new examples",
                  lambda: [(s.name, s.line, [six.text_type(t) for t in s.tags])
                           for s in outline.scenarios])
outline.examples[:] = []
emit("any-modified (no examples):", outline._is_any_example_table_modified())
emit("expected-count (no examples):", outline._expected_scenarios_count())
emit("scenarios unchanged w/o examples:",
     r([s.name for s in outline.scenarios]))

# -- reset() does not rebuild; template steps are never touched
feature = parser.parse_feature(FEATURE_BG_PARAM, filename="reset.feature")
for outline in outlines_of(feature):
    emit("reset-before-build:", len(outline._scenarios))
    outline.reset()
    emit("reset-no-build:", len(outline._scenarios))
    scenarios = outline.scenarios
    outline.reset()
    emit("reset-keeps-cache:", outline.scenarios is scenarios)
    # -- Row independence: mutate one generated scenario
    scenarios[0].steps[0].name = u"MUTATED"
    scenarios[0].tags.append(u"mutated")
    emit("others:", r([s.steps[0].name for s in scenarios[1:]]),
         r([list(s.tags) for s in scenarios[1:]]),
         "template:", r(outline.steps[0].name), r(list(outline.tags)))


# ---------------------------------------------------------------------------
# BUILDER HELPERS: direct calls
# ---------------------------------------------------------------------------
emit("=" * 70)
emit("RENDER-TEMPLATE")
render = ScenarioOutlineBuilder.render_template
row_ab = Row([u"a", u"b"], [u"1", u"2"])
row_chain = Row([u"a", u"b", u"c"], [u"<b>", u"<c>", u"end"])
row_rchain = Row([u"c", u"b", u"a"], [u"end", u"<c>", u"<b>"])
row_empty = Row([], [])
row_dup = Row([u"a", u"a"], [u"first", u"second"])
row_int = Row([u"a", u"n"], [u"1", u"2"])
row_int.cells[1] = 5
TEXTS = [
    u"", u"plain", u"<", u">", u"><", u"<>", u"<a>", u"<a><b>", u"<b><a>",
    u"x<a>y<a>z", u"<a <b>>", u"<<a>>", u"< a >", u"<A>", u"<c>", u"a > b < c",
    u"<a>\n<b>\n", u"<row.id> <examples.name>", u"<n>", u"<ä>", u"<a><n>",
]
PARAMS = [
    None, {}, {u"a": u"P"}, OrderedDict([(u"c", u"<a>"), (u"a", u"pa")]),
    OrderedDict([(u"row.id", u"1.2"), (u"examples.name", None)]),
    OrderedDict([(u"ä", u"ü"), (u"n", u"N")]),
]
ROWS = [None, row_ab, row_chain, row_rchain, row_empty, row_dup, row_int,
        {u"a": u"dict-a"}, OrderedDict([(1, u"one"), ((u"t",), u"tuple")])]
for ri, row in enumerate(ROWS):
    for pi, params in enumerate(PARAMS):
        for text in TEXTS:
            attempt("render(%s, row#%d, params#%d)" % (r(text), ri, pi),
                    render, text, row, params)
attempt("render(text-only)", render, u"<a> only")
attempt("render(None)", render, None, row_ab)
attempt("render(int)", render, 5, row_ab)
attempt("render(bytes)", render, b"<a>", row_ab)
attempt("render(list)", render, [u"<", u">", u"<a>"], row_ab)
attempt("render(row=list)", render, u"<a>", [(u"a", u"1")])
attempt("render(params=list)", render, u"<a>", None, [(u"a", u"1")])
attempt("render(row=str)", render, u"<a>", u"abc")
attempt("render(<1> int key)", render, u"<1> <t>", ROWS[-1])
attempt("render via instance", ScenarioOutlineBuilder().render_template,
        u"<a>-<b>", row_ab, {u"b": u"never", u"x": u"y"})
attempt("render kw", render, text=u"<a>-<z>", params={u"z": u"Z"}, row=row_ab)


class LoggingProvider(object):
    """Placeholder provider that logs how/when it is consulted."""
    def __init__(self, name, pairs, log, truth=True):
        self.name = name
        self.pairs = pairs
        self.log = log
        self.truth = truth

    def __bool__(self):
        self.log.append("%s.bool" % self.name)
        return self.truth
    __nonzero__ = __bool__

    def items(self):
        self.log.append("%s.items" % self.name)
        for pair in self.pairs:
            self.log.append("%s.yield:%s" % (self.name, pair[0]))
            yield pair
        self.log.append("%s.done" % self.name)


class LoggingText(six.text_type):
    LOG = []

    def __contains__(self, item):
        LoggingText.LOG.append("contains:%s" % item)
        return six.text_type.__contains__(self, item)

    def replace(self, old, new, *args):
        LoggingText.LOG.append("replace:%s=%s" % (old, new))
        return LoggingText(six.text_type.replace(self, old, new, *args))


for text in [u"<a> <b> <p>", u"plain", u"only <", u"only >", u"><"]:
    for row_truth in (True, False):
        for params_truth in (True, False):
            for bad in (False, True):
                log = []
                LoggingText.LOG = log
                p_row = LoggingProvider("row", [(u"a", u"1"),
                                                (u"b", 7 if bad else u"2")],
                                        log, row_truth)
                p_params = LoggingProvider("params", [(u"p", u"P"), (u"a", u"late")],
                                           log, params_truth)
                label = "logged(%s, %s, %s, bad=%s)" % (r(text), row_truth,
                                                        params_truth, bad)
                attempt(label, render, LoggingText(text), p_row, p_params)
                emit(label, "log:", r([six.text_type(x) for x in log]))

emit("=" * 70)
emit("MAKE-ROW-TAGS / MAKE-STEP-FOR-ROW / MAKE-SCENARIO-NAME")
make_tags = ScenarioOutlineBuilder.make_row_tags
for tags in [None, [], [u"plain"], [u"a.<a>", u"<b>", u"x"], [u"<zzz>", u"k"],
             [u"<a", u"a>", u"><"], [u"sp.<a>"], [u"<c>"]]:
    for row in [row_ab, row_chain, Row([u"a", u"b"], [u"has space", u"q\"uote"])]:
        for params in [None, {u"zzz": u"Z"}]:
            result = attempt("make_row_tags(%s, %s, %s)" % (
                r(tags), r(list(row.cells)), r(params)),
                make_tags, tags, row, params)
            if result:
                emit("   types:", [type(t).__name__ for t in result])

steps = parser.parse_steps(u'''
Given a <a> step with <b> and <zzz>
  """
  text <a> and <zzz>
  """
When a table <a>
  | <a> | h<b> | <zzz> |
  | <b> | <a><a> | c |
  | <zzz> | plain | <a <b>> |
Then plain
''')
make_step = ScenarioOutlineBuilder.make_step_for_row
for step in steps:
    for row in [row_ab, row_chain, row_rchain, row_empty, row_dup, row_int]:
        for params in [None, {u"zzz": u"Z"}]:
            label = "make_step(%s, %s, %s)" % (r(step.name), r(list(row.cells)),
                                               r(params))
            try:
                new_step = make_step(step, row, params)
            except Exception as e:  # pylint: disable=broad-except
                emit(label, "-> EXC", type(e).__name__, r(six.text_type(e)))
            else:
                emit(label, "new-object:", new_step is not step,
                     "table-copied:", (new_step.table is None
                                       or new_step.table is not step.table))
                dump_step("   new", new_step)
            dump_step("   tpl", step)

# -- step with empty table / table without rows / Mock-like steps
empty_table_step = Step(u"f", 1, u"Given", "given", u"empty <a>",
                        table=Table([u"<a>", u"b"], line=2))
dump_step("empty-table", make_step(empty_table_step, row_ab))
noheading_step = Step(u"f", 1, u"Given", "given", u"nohead <a>",
                      table=Table([], rows=[[], []], line=2))
dump_step("no-headings", make_step(noheading_step, row_ab))
empty_text_step = Step(u"f", 1, u"Given", "given", u"<b>", text=u"")
dump_step("empty-text", make_step(empty_text_step, row_ab))

# -- EXTRA (t10): unusual step tables (tuple headings/cells, shared lists)
def table_state(table):
    return r([list(table.headings)] + [list(rw.cells) for rw in table.rows])


for headings, rows in [
        ((u"<a>", u"b"), [[u"<a>", u"<b>"]]),
        ((), [[], []]),
        ([u"<a>", u"b"], [(u"<a>", u"<b>")]),
        ([u"h"], [()]),
        ([], [()]),
        ([u"<b>"], [[u"x"], (u"<b>",), [u"<a>"]]),
        ([u"<a>", 5], [[u"<a>", u"<b>"]]),
        ([u"<a>"], [[u"<a>"], [u"<b>"]]),
]:
    table = Table(list(headings) if isinstance(headings, list) else headings)
    for cells in rows:
        table.rows.append(Row(table.headings, cells, line=1))
    a_step = Step(u"f", 1, u"Given", "given", u"odd <a>", table=table)
    for row in [row_ab, row_empty, row_int, row_dup]:
        label = "odd-table(%s, %s, %s)" % (r(headings), r(rows), r(list(row.cells)))
        try:
            new_step = make_step(a_step, row)
        except Exception as e:  # pylint: disable=broad-except
            emit(label, "-> EXC", type(e).__name__, r(six.text_type(e)))
        else:
            emit(label, "->", r(new_step.name), table_state(new_step.table),
                 "headings-shared:", [rw.headings is new_step.table.headings
                                      for rw in new_step.table.rows],
                 "types:", type(new_step.table.headings).__name__,
                 [type(rw.cells).__name__ for rw in new_step.table.rows])
        emit("   template:", table_state(a_step.table))

# -- bad (non-text) row value reaches the table loops (plain step name)
for headings, rows in [([u"<a>", u"<n>"], [[u"<a>", u"x"], [u"<n>", u"<a>"]]),
                       ([], [[u"<a>"]]), ([], []), ([u"h"], [])]:
    table = Table(headings, rows=rows, line=7)
    plain_step = Step(u"f", 6, u"Given", "given", u"plain name", table=table)
    row_none = Row([u"n", u"a"], [u"N", u"A"])
    row_none.cells[0] = None
    for row in [row_int, row_none]:
        label = "bad-value-table(%s, %s, %s)" % (r(headings), r(rows), r(list(row.cells)))
        try:
            new_step = make_step(plain_step, row)
        except Exception as e:  # pylint: disable=broad-except
            emit(label, "-> EXC", type(e).__name__, r(six.text_type(e)))
        else:
            emit(label, "->", table_state(new_step.table))
        emit("   template:", table_state(plain_step.table))

# -- step subclass and outline_step that is shared between two outlines
class MyStep(Step):
    pass


my_step = MyStep(u"f", 3, u"When", "when", u"<a>/<b>", text=u"<a>|<b>|<zzz>",
                 table=Table([u"<a>"], rows=[[u"<b>"]], line=4))
for params in [None, {u"zzz": u"Z", u"a": u"param-a"}]:
    new_step = make_step(my_step, row_ab, params)
    emit("subclass kept:", type(new_step).__name__)
    dump_step("   new", new_step)
    new_step2 = ScenarioOutlineBuilder().make_step_for_row(my_step, row_chain, params)
    dump_step("   new2", new_step2)
    dump_step("   tpl", my_step)
attempt("make_step(None)", make_step, None, row_ab)
attempt("make_step(row=None)", make_step, my_step, None)
attempt("make_step(row=dict)", lambda: make_step(my_step, {u"a": u"D"}).table.rows[0].cells)
no_table = Step(u"f", 3, u"When", "when", u"<a>/<b>")
attempt("make_step(no table, row=None)", lambda: make_step(no_table, None).name)

builder_default = ScenarioOutlineBuilder()
emit("default schema:", r(builder_default.annotation_schema))
for schema in SCHEMAS[1:] + [u"{name} {row} {examples}"]:
    builder = ScenarioOutlineBuilder(schema)
    for ex_name in [u"", u"Ex <a>", None]:
        example = Examples(u"f", 10, u"Examples", ex_name or u"")
        example.name = ex_name
        example.index = 3
        row = Row([u"a", u"b"], [u"1", u"2"], line=12)
        row.index = 2
        row.id = u"3.2"
        for params in [None, {}, {u"row.id": u"custom"},
                       OrderedDict([(u"examples.name", u"zz"), (u"b", u"pb")])]:
            label = "make_name(%s, ex=%s, params=%s)" % (r(schema), r(ex_name),
                                                        r(params))
            if schema.endswith(u"{examples}"):
                # -- Object repr contains an address: only report success.
                try:
                    builder.make_scenario_name(u"N <a> <b> <row.id>", example,
                                               row, params)
                    emit(label, "-> ok")
                except Exception as e:  # pylint: disable=broad-except
                    emit(label, "-> EXC", type(e).__name__)
            else:
                attempt(label, builder.make_scenario_name,
                        u"N <a> <b> <row.id> <examples.name> <examples.index>",
                        example, row, params)
            emit("   params-after:", r(params))

emit("=" * 70)
emit("BUILD-SCENARIOS direct")
feature = parser.parse_feature(FEATURE_CHAIN, filename="direct.feature")
outline = list(outlines_of(feature))[0]
builder = ScenarioOutlineBuilder(u"{name} #{row.id}")
with captured_stdout() as buf:
    built1 = builder.build_scenarios(outline)
    built2 = builder.build_scenarios(outline)
emit("printed:", r(six.text_type(buf.getvalue())))
emit("direct names:", r([s.name for s in built1]))
emit("direct again equal names:", [s.name for s in built1] == [s.name for s in built2],
     "distinct objects:", all(a is not b for a, b in zip(built1, built2)))
emit("outline cache untouched:", r(outline._scenarios))
emit("flags:", [e.table.modified for e in outline.examples])
emit("indexes:", [(e.index, [(rw.index, rw.id) for rw in e.table]) for e in outline.examples])
emit("outline.scenarios after direct build:", r([s.name for s in outline.scenarios]))
outline.examples[0].table.modified = True
emit("forced rebuild:", r([s.name for s in outline.scenarios]))


class Obj(object):
    pass


fake = Obj()
fake.examples = []
emit("build(no examples):", r(builder.build_scenarios(fake)))
attempt("build(None)", builder.build_scenarios, None)
fake.examples = iter([])
emit("build(iterator examples):", r(builder.build_scenarios(fake)))

text = u"\n".join(OUT) + u"\n"
if six.PY2:
    text = text.encode("utf-8")
    sys.stdout.write(text)
else:
    sys.stdout.buffer.write(text.encode("utf-8"))
