#!/venv/bin/python
# -*- coding: utf-8 -*-
"""CLI of the static checks:  check.py <Cnn> [--tier quick|thorough] [--replay FILE]

exit 0: every obligation held on the current working tree of the repository
        (known findings are printed as KNOWN-FINDING lines)
exit 1: a violation not listed in known_findings.txt; one line
        "VIOLATION property=<id> replay=<path>" each
exit 2: ANALYSIS-ERROR - the check cannot give a verdict (anchor vanished,
        construct outside the analysed subset, imprecision); never a violation.
"""
import importlib
import json
import os
import sys
import traceback

HERE = os.path.dirname(os.path.abspath(__file__))
sys.path.insert(0, HERE)
sys.setrecursionlimit(20000)


def main(argv):
    if len(argv) < 2:
        print(__doc__)
        return 2
    prop = argv[1].upper()
    tier = os.environ.get("VERIF_TIER", "quick")
    replay = None
    i = 2
    while i < len(argv):
        if argv[i] == "--tier":
            tier = argv[i + 1]
            i += 2
        elif argv[i] == "--replay":
            replay = argv[i + 1]
            i += 2
        else:
            i += 1
    seed = int(os.environ.get("VERIF_SEED", "0") or 0)
    from sa.index import AnalysisError, get_index, repo_root
    from sa.report import Check
    chk = Check(prop, tier)
    # a check that does not end is a broken check: a wall-clock budget turns it into "no verdict" (exit 2)
    budget = int(os.environ.get("VERIF_TIME_BUDGET", "0") or 0) or (1500 if tier == "quick" else 6 * 3600)

    def _out_of_time(signum, frame):
        raise AnalysisError("time budget of %d s exhausted (VERIF_TIME_BUDGET): the exploration does not converge on this source" % budget)
    try:
        import signal
        signal.signal(signal.SIGALRM, _out_of_time)
        signal.alarm(budget)
    except (ImportError, ValueError, AttributeError):
        pass
    try:
        mod = importlib.import_module("sa.props.%s" % prop.lower())
        _defer_rule_errors(chk)
        ix = get_index()
        st = ix.stats()
        print("[%s] analysing %s: %d modules, %d classes, %d functions parsed from the working tree" % (
            prop, repo_root(), st["modules"], st["classes"], st["functions"]))
        chk.explanation = mod.EXPLANATION
        chk.not_decided = mod.NOT_DECIDED
        chk.assumptions.extend(getattr(mod, "ASSUMPTIONS", []))
        mod.run(chk, ix, tier)
        if replay:
            want = json.load(open(replay))
            hits = [f for f in chk.findings if f.key() == want.get("key")]
            if hits:
                f = hits[0]
                print("REPLAY reproduces: rule %s in %s: %s" % (f.rule, f.function, f.text))
                for p in f.path:
                    print("    path: %s" % p)
                print("VIOLATION property=%s replay=%s" % (prop, replay))
                return 1
            print("REPLAY: no longer reproduces (%s)" % want.get("key"))
            return 0
        return chk.finish(seed)
    except AnalysisError as e:
        return _finish_with_error(chk, seed, str(e))
    except Exception as e:      # noqa
        traceback.print_exc()
        return _finish_with_error(chk, seed, "internal error of the checker: %s: %s" % (type(e).__name__, e))


def _finish_with_error(chk, seed, msg):
    """No verdict from (part of) the analysis.  Violations that other rules have already established are still real:
    they are reported (exit 1); otherwise exit 2."""
    if not hasattr(chk, "floor_errors"):
        chk.floor_errors = []
    chk.floor_errors.append(msg)
    try:
        return chk.finish(seed)
    except Exception as e:      # noqa
        print("ANALYSIS-ERROR property=%s: %s" % (chk.prop, msg))
        print("ANALYSIS-ERROR property=%s: while writing the report: %s: %s" % (chk.prop, type(e).__name__, e))
        return 2


def _defer_rule_errors(chk0):
    """Every rule function (sa.rules_*.check_*) runs to its own end: an ANALYSIS-ERROR of one rule is recorded and the
    remaining rules still run, so that a change which makes one rule's anchor vanish cannot hide what another rule sees."""
    import functools
    from sa.index import AnalysisError
    from sa.report import Check
    import pkgutil
    import sa
    for mi in pkgutil.iter_modules(sa.__path__):
        if mi.name.startswith("rules_"):
            importlib.import_module("sa." + mi.name)      # also the rule modules a property imports lazily
    for name, m in list(sys.modules.items()):
        if not name.startswith("sa.rules_"):
            continue
        for attr, fn in list(vars(m).items()):
            if not attr.startswith("check_") or not callable(fn) or getattr(fn, "_deferring", False) or getattr(fn, "__module__", None) != name:
                continue

            def make(fn):
                @functools.wraps(fn)
                def wrapper(*a, **k):
                    chk = a[0] if a and isinstance(a[0], Check) else None
                    if chk is None:
                        return fn(*a, **k)
                    try:
                        return fn(*a, **k)
                    except AnalysisError as e:
                        msg = "%s: %s" % (fn.__name__, e)
                    except RecursionError:
                        raise
                    except Exception as e:      # noqa
                        traceback.print_exc()
                        msg = "%s: internal error of the checker: %s: %s" % (fn.__name__, type(e).__name__, e)
                    if not hasattr(chk, "floor_errors"):
                        chk.floor_errors = []
                    chk.floor_errors.append(msg)
                    return None
                wrapper._deferring = True
                return wrapper
            setattr(m, attr, make(fn))


if __name__ == "__main__":
    sys.exit(main(sys.argv))
